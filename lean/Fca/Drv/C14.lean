/-
  Driver handlers for C14: many-valued contexts.

  context  : {"n":N, "names":[..], "cols":[{"t":"I","d":[[l,r],..]} | {"t":"S","d":[[0,1],..]} | {"t":"A","d":[0,1,..]}]}
  desc     : [[ps_i, {"I":[lo,hi]|null} | {"S":[..]|null} | {"B":0|1}], ..]   (dict iteration order)
-/
import Fca.Drv.Util
import Fca.Model.MVContext
import Fca.Spec.MVContext
open Lean
namespace Fca.Drv.C14
open Fca Fca.Drv Fca.MV

def getPairs (v : Json) : Except String (List (Int × Int)) := do
  (← arr v).mapM fun p => do
    match (← intList p) with
    | [a, b] => pure (a, b)
    | _ => throw "interval cell must be [l,r]"

def getCol (v : Json) : Except String Col := do
  let t ← getStr v "t"
  let d ← v.getObjVal? "d"
  match t with
  | "I" => pure (.interval (← getPairs d))
  | "S" => pure (.set (← (← arr d).mapM natList))
  | "A" => pure (.attr (← boolList d))
  | s => throw s!"unknown column type {s}"

def getK (j : Json) (k : String := "K") : Except String MVCtx := do
  let o ← j.getObjVal? k
  let cols ← (← arr (← o.getObjVal? "cols")).mapM getCol
  pure ⟨cols, ← getNat o "n", ← getStrList o "names"⟩

def getDVal (v : Json) : Except String DVal := do
  match v.getObjVal? "I" with
  | .ok .null => pure (.ival none)
  | .ok x => match (← intList x) with
    | [a, b] => pure (.ival (some (a, b)))
    | _ => throw "interval description must be [lo,hi]"
  | .error _ =>
    match v.getObjVal? "S" with
    | .ok .null => pure (.sval none)
    | .ok x => pure (.sval (some (← natList x)))
    | .error _ =>
      match v.getObjVal? "B" with
      | .ok x => pure (.bval (← boolOf x))
      | .error _ => throw "description value must have key I, S or B"

def getDesc (v : Json) : Except String Desc := do
  (← arr v).mapM fun p => do
    match (← arr p) with
    | [i, d] => pure (← i.getNat?, ← getDVal d)
    | _ => throw "description entry must be [ps_i, value]"

def jDVal : DVal → Json
  | .ival none => Json.mkObj [("I", Json.null)]
  | .ival (some (a, b)) => Json.mkObj [("I", jInts [a, b])]
  | .sval none => Json.mkObj [("S", Json.null)]
  | .sval (some s) => Json.mkObj [("S", jNats (sortNats s))]
  | .bval b => Json.mkObj [("B", Json.num (JsonNumber.fromNat (if b then 1 else 0)))]

def jDesc (d : Desc) : Json :=
  Json.arr (d.map fun p => Json.arr #[Json.num (JsonNumber.fromNat p.1), jDVal p.2]).toArray

def jExc (f : α → Json) : Except PyErr α → Json
  | .ok x => Json.mkObj [("ok", f x)]
  | .error e => jErr e

def jBool (b : Bool) : Json := Json.bool b


/-- `{"op":"C14.ext","K":..,"descs":[..],"bases":[null|[..],..]}` → for every description and every base:
    model (with errors), spec filter, well-typedness -/
def extH : Handler := fun j => do
  let K ← getK j
  let descs ← (← arr (← j.getObjVal? "descs")).mapM getDesc
  let bases ← (← arr (← j.getObjVal? "bases")).mapM fun v =>
    match v with
    | .null => pure none
    | v => do pure (some (← natList v))
  let mat := descs.map fun desc => Json.arr (bases.map fun (base : Option (List Nat)) => Json.mkObj [
    ("model", jExc jNats (K.extensionI desc base)),
    ("spec", jNats (K.extSpec desc (base.getD (List.range K.nObjects)))),
    ("typed", jBool (decide (K.WellTyped desc)))]).toArray
  pure (Json.mkObj [("mat", Json.arr mat.toArray)])

/-- `{"op":"C14.cl","K":..,"subsets":[[..],..]}` → per subset: model intention, model closure, spec closure -/
def clH : Handler := fun j => do
  let K ← getK j
  let subs ← (← arr (← j.getObjVal? "subsets")).mapM natList
  let res := subs.map fun A => Json.mkObj [
    ("int", jDesc (K.intentionI A)),
    ("cl", jExc jNats (K.cl A)),
    ("spec", jNats (K.clSpec A))]
  pure (Json.mkObj [("res", Json.arr res.toArray), ("wf", jBool (decide K.WF))])

def sortLists (xs : List (List Nat)) : List (List Nat) :=
  let ys := xs.map sortNats
  (ys.toArray.qsort fun a b => decide (a.length < b.length) || (a.length == b.length && decide (a < b))).toList

/-- `{"op":"C14.bin","K":..,"rows":[[..]],"w":W}` (rows/w: the implementation's binarised table) →
    model binarisation, declared width, closed object sets of the implementation's table (brute force),
    closed sets of the many-valued context (spec), BottomOK -/
def binH : Handler := fun j => do
  let K ← getK j
  let t ← getTable j
  let mb := K.binarize
  let modelJ := match mb with
    | .ok Kb => Json.mkObj [("rows", jBoolss Kb.table.data), ("w", Json.num (JsonNumber.fromNat Kb.table.width)),
        ("names", jStrs Kb.objNames),
        ("closed", jNatss (sortLists (MVCtx.closedOfTable Kb.table)))]
    | .error e => jErr e
  pure (Json.mkObj [
    ("model", modelJ),
    ("nbin", Json.num (JsonNumber.fromNat K.nBinAttrs)),
    ("nproduced", Json.num (JsonNumber.fromNat K.binAttrExtents.length)),
    ("closed_impl_table", jNatss (sortLists (MVCtx.closedOfTable t))),
    ("closed_mv", jNatss (sortLists K.closedSets)),
    ("closed_ne", jNatss (sortLists K.closedNE)),
    ("bottomOK", jBool (decide K.BottomOK))])

def jPC (c : MVCtx.PC) : Json := Json.mkObj [("e", jNats (sortNats c.extent)), ("raw", jNats c.extent), ("i", jDesc c.intent)]

def pathName : MVCtx.Path → String
  | .objectwise => "objectwise" | .binDirect => "binDirect" | .binTransposed => "binTransposed"

/-- `{"op":"C14.lat","K":..,"thrs":[0,1000]}` → BottomOK, the closed sets with their descriptions and the
    cover relation among them (spec), and for each threshold the path taken and the mined lattice (model) -/
def latH : Handler := fun j => do
  let K ← getK j
  let thrs ← getNatList j "thrs"
  let closed := sortLists K.closedSets
  let covers := (List.range closed.length).flatMap fun i =>
    (Spec.lowerCovers closed i).map fun c => jNats [i, c]
  -- the fuel is the proved sufficient one (`Fca.C14.mv_lattice_exact`): `MVCtx.closeByOneFuel`
  let paths := thrs.map fun thr =>
    let fuel := K.closeByOneFuel thr
    Json.mkObj [
    ("thr", Json.num (JsonNumber.fromNat thr)),
    ("path", Json.str (pathName (K.choosePath thr))),
    ("cbo", jExc (fun cs => Json.arr (cs.map jPC).toArray) (K.closeByOne thr fuel)),
    ("res", jExc (fun cs => Json.arr (cs.map jPC).toArray) (K.latticeConcepts thr fuel))]
  pure (Json.mkObj [
    ("bottomOK", jBool (decide K.BottomOK)),
    ("clEmpty", jExc jNats (K.cl [])),
    ("extBottom", jNats K.extBottom),
    ("closed", jNatss closed),
    ("closedInt", Json.arr (closed.map fun e => jDesc (K.intentionI e)).toArray),
    ("covers", Json.arr covers.toArray),
    ("paths", Json.arr paths.toArray)])

/-! ### large contexts (64/65/129 objects): no brute force over the object subsets

  The oracles are the ones the theorems provide: `binarize_same_closed_sets` (the binarised table closes every
  non-empty object set as the many-valued context does — checked point-wise on the given object lists) and
  `mv_lattice_exact` (under `BottomOK`, which `bottomOK_characterised` gives for every context with an interval
  column, the model's `close_by_one` returns exactly the closed object sets). -/

def hasIntervalCol (K : MVCtx) : Bool := K.cols.any fun c => match c with
  | .interval _ => true
  | _ => false

/-- `{"op":"C14.binBig","K":..,"rows":[[..]],"w":W,"subsets":[[..],..]}` → model binarisation, declared / produced
    width, and for every given object list the closure in the implementation's binarised table next to the
    closure in the many-valued context (spec) -/
def binBigH : Handler := fun j => do
  let K ← getK j
  let t ← getTable j
  let subs ← (← arr (← j.getObjVal? "subsets")).mapM natList
  let modelJ := match K.binarize with
    | .ok Kb => Json.mkObj [("rows", jBoolss Kb.table.data), ("w", Json.num (JsonNumber.fromNat Kb.table.width)),
        ("names", jStrs Kb.objNames)]
    | .error e => jErr e
  let cls := subs.map fun A => Json.mkObj [
    ("table", jNats (sortNats (Spec.closure t A))),
    ("mv", jNats (sortNats (K.clSpec A)))]
  pure (Json.mkObj [
    ("model", modelJ),
    ("wf", jBool (decide K.WF)),
    ("nbin", Json.num (JsonNumber.fromNat K.nBinAttrs)),
    ("nproduced", Json.num (JsonNumber.fromNat K.binAttrExtents.length)),
    ("closures", Json.arr cls.toArray),
    ("tableBottom", jNats (sortNats (Spec.closure t []))),
    ("extBottom", jNats K.extBottom),
    ("bottomOK", jBool (hasIntervalCol K))])

/-- `{"op":"C14.latBig","K":..,"thrs":[0,1000]}` → the reply of `C14.lat` without any enumeration of object subsets:
    `bottomOK` is the sufficient condition "has an interval column"; `closed` are the extents the model's first path
    returns (= the closed object sets by `mv_lattice_exact` when `bottomOK` and `wf`), `selfClosed` says each of
    them is its own closure (spec) or the bottom extent -/
def latBigH : Handler := fun j => do
  let K ← getK j
  let thrs ← getNatList j "thrs"
  let runs := thrs.map fun thr =>
    let fuel := K.closeByOneFuel thr
    (thr, K.closeByOne thr fuel, K.latticeConcepts thr fuel)
  let closed := match runs.head? with
    | some (_, _, .ok cs) => sortLists (cs.map (·.extent))
    | _ => []
  let covers := (List.range closed.length).flatMap fun i =>
    (Spec.lowerCovers closed i).map fun c => jNats [i, c]
  let paths := runs.map fun (thr, cbo, res) => Json.mkObj [
    ("thr", Json.num (JsonNumber.fromNat thr)),
    ("path", Json.str (pathName (K.choosePath thr))),
    ("cbo", jExc (fun cs => Json.arr (cs.map jPC).toArray) cbo),
    ("res", jExc (fun cs => Json.arr (cs.map jPC).toArray) res)]
  pure (Json.mkObj [
    ("bottomOK", jBool (hasIntervalCol K)),
    ("wf", jBool (decide K.WF)),
    ("clEmpty", jExc jNats (K.cl [])),
    ("extBottom", jNats K.extBottom),
    ("closed", jNatss closed),
    ("selfClosed", jBool (closed.all fun e => K.clSpec e == e || e == K.extBottom)),
    ("closedInt", Json.arr (closed.map fun e => jDesc (K.intentionI e)).toArray),
    ("covers", Json.arr covers.toArray),
    ("paths", Json.arr paths.toArray)])

def handlers : List (String × Handler) :=
  [("C14.ext", extH), ("C14.cl", clH), ("C14.bin", binH), ("C14.lat", latH),
   ("C14.binBig", binBigH), ("C14.latBig", latBigH)]

end Fca.Drv.C14

/-
  Driver handlers for C01: run the model's derivation operators and the spec.
-/
import Fca.Drv.Util
import Fca.Model.Context
import Fca.Spec.Galois
open Lean
namespace Fca.Drv.C01
open Fca Fca.Drv

/-- `{"op":"C01.i","be":..,"rows":..,"w":..,"kind":"ext|int|extm|intm","sel":[..],"base":null|[..]}`
    → `{"model":[..],"spec":[..]}` -/
def derivI : Handler := fun j => do
  let be ← getBackend j
  let t ← getTable j
  let kind ← getStr j "kind"
  let sel ← getNatList j "sel"
  let base ← getOptNatList j "base"
  let K : Ctx := ⟨be, t, [], []⟩
  let (model, spec) ← match kind with
    | "ext" => pure (K.extensionI sel base, Spec.ext t sel (base.getD (List.range t.height)))
    | "int" => pure (K.intentionI sel base, Spec.int t sel (base.getD (List.range t.width)))
    | "extm" => pure (K.extensionMonotoneI sel base,
        if sel.length = t.width then base.getD (List.range t.height)
        else Spec.extMono t sel (base.getD (List.range t.height)))
    | "intm" => pure (K.intentionMonotoneI sel base, Spec.intMono t sel (base.getD (List.range t.width)))
    | s => throw s!"unknown kind {s}"
  pure (Json.mkObj [("model", jNats model), ("spec", jNats spec)])

def exceptJ : Except PyErr (List String) → Json
  | .ok xs => Json.mkObj [("ok", jStrs xs)]
  | .error e => jErr e

/-- `{"op":"C01.n","be":..,"rows":..,"w":..,"objs":[names],"attrs":[names],"kind":"ext|int",
     "mono":bool,"sel":[names],"base":null|[names]}` → `{"ok":[names]}` | `{"err":..}` -/
def derivN : Handler := fun j => do
  let be ← getBackend j
  let t ← getTable j
  let K : Ctx := ⟨be, t, ← getStrList j "objs", ← getStrList j "attrs"⟩
  let kind ← getStr j "kind"
  let mono ← getBool j "mono"
  let sel ← getStrList j "sel"
  let base ← getOptStrList j "base"
  match kind with
  | "ext" => pure (exceptJ (K.extension sel base mono))
  | "int" => pure (exceptJ (K.intention sel mono))
  | s => throw s!"unknown kind {s}"

def handlers : List (String × Handler) := [("C01.i", derivI), ("C01.n", derivN)]

end Fca.Drv.C01

/-
  Driver handlers for C15: run the Sofia model (identity tie order), judge an implementation
  output with the checker `holdsC15`, distinct columns of a decision-path matrix, random-forest concepts.
-/
import Fca.Drv.Util
import Fca.Model.SofiaApprox
import Fca.Model.RFTree
import Fca.Spec.C15
open Lean
namespace Fca.Drv.C15
open Fca Fca.Drv Fca.SofiaApprox Fca.Spec.C15

def idTie : Tie := fun _ l => l

def jPairs (xs : List (List Nat × List Nat)) : Json :=
  Json.arr (xs.map fun c => Json.arr #[jNats c.1, jNats c.2]).toArray

/-- `out` is sent as `[[extent, intent|null], ...]` -/
def getOut (j : Json) : Except String (List (List Nat × Option (List Nat))) := do
  let xs ← arr (← j.getObjVal? "out")
  xs.mapM fun c => do
    let p ← arr c
    match p with
    | [e, i] =>
      let e ← natList e
      match i with
      | .null => pure (e, none)
      | _ => pure (e, some (← natList i))
    | _ => throw "out entry must be [extent, intent|null]"

/-- `{"op":"C15.sofia","be":..,"rows":..,"w":..,"lmax":L,"p":p,"q":q,"log":bool,"out":[[ext,int|null],..]}`
    → `{"model": [[ext,int],..] | {"err":..}, "model_fails":[..], "impl_fails":[..],
        "never_binds":bool, "n_meet":k, "model_masks_sorted":bool}` -/
def sofiaH : Handler := fun j => do
  let be ← getBackend j
  let t ← getTable j
  let lmax ← getNat j "lmax"
  let ms : MinSupp := ⟨← getNat j "p", ← getNat j "q"⟩
  let useLog ← getBool j "log"
  let out ← getOut j
  let K : Ctx := ⟨be, t, [], []⟩
  -- "via":"T" — wide table: concepts enumerated through the transposed table (`Fca.C15.checker_via_transpose`)
  let viaT := match getStr j "via" with | .ok "T" => true | _ => false
  let model := sofia idTie useLog ms lmax K
  let (mj, mfails) := match model with
    | .ok cs => (jPairs cs, if viaT then failsC15T t ms lmax cs else failsC15 t ms lmax cs)
    | .error e => (jErr e, ["model-error"])
  let exts := out.map (·.1)
  let pairs := out.filterMap fun c => c.2.map fun i => (c.1, i)
  let ifails := failsPairs t pairs ++ (if viaT then failsExtT t ms lmax exts else failsExt t ms lmax exts)
  pure (Json.mkObj [("model", mj), ("model_fails", jStrs mfails), ("impl_fails", jStrs ifails),
    ("never_binds", Json.bool (neverBinds idTie ms lmax t)),
    ("n_meet", Json.num (JsonNumber.fromNat (if viaT then meetingT t ms else meeting t ms).length))])

def getMatrix (j : Json) (k : String) : Except String (List (List Bool)) := do
  (← arr (← j.getObjVal? k)).mapM boolList

/-- `{"op":"C15.tree","M":[[0/1,..],..],"mw":nodes}` → `{"exts":[[rows],..]}` (first-occurrence order) -/
def treeH : Handler := fun j => do
  let M ← getMatrix j "M"
  let w ← getNat j "mw"
  pure (Json.mkObj [("exts", jNatss (treeExtents M w))])

/-- `{"op":"C15.rf","be":..,"rows":..,"w":..,"M":..,"mw":..,"out":[[ext,int|null],..]}` (`rows` = the
    context table, for a many-valued context its binarisation)
    → `{"model":[[ext,int],..], "impl_fails":[..], "nonclosed":[[ext, closure],..], "bottom":[..]}` -/
def rfH : Handler := fun j => do
  let be ← getBackend j
  let t ← getTable j
  let M ← getMatrix j "M"
  let w ← getNat j "mw"
  let out ← getOut j
  let K : Ctx := ⟨be, t, [], []⟩
  let exts := out.map (·.1)
  let pairs := out.filterMap fun c => c.2.map fun i => (c.1, i)
  let nonclosed := exts.filter fun A => !(Spec.closure t A == A)
  pure (Json.mkObj [("model", jPairs (rfConcepts K M w)),
    ("impl_fails", jStrs (failsPairs t pairs ++ failsRF t exts)),
    ("nonclosed", Json.arr (nonclosed.map fun A => Json.arr #[jNats A, jNats (Spec.closure t A)]).toArray),
    ("bottom", jNats (Spec.extAll t (Spec.intAll t [])))])

/-! ### the fitted trees inside the model (`Fca/Model/RFTree.lean`) -/

def ratOf (v : Json) : Except String Rat := do
  match (← arr v) with
  | [a, b] => do
    let n ← a.getInt?
    let d ← b.getNat?
    if d = 0 then throw "zero denominator" else pure (mkRat n d)
  | _ => throw "rational must be [num, den]"

def ratList (v : Json) : Except String (List Rat) := do (← arr v).mapM ratOf

def jRat (q : Rat) : Json := Json.arr #[Json.num (JsonNumber.fromInt q.num), Json.num (JsonNumber.fromNat q.den)]

/-- `"trees": [{"left":[..],"right":[..],"feature":[..],"threshold":[[num,den],..]}, ..]` (node values are not read by
    `decision_path`: zeros) -/
def getTrees (j : Json) : Except String (List DL.Tree) := do
  (← arr (← j.getObjVal? "trees")).mapM fun t => do
    let left ← intList (← t.getObjVal? "left")
    let right ← intList (← t.getObjVal? "right")
    let feature ← intList (← t.getObjVal? "feature")
    let threshold ← ratList (← t.getObjVal? "threshold")
    pure ⟨left, right, feature, threshold, left.map fun _ => 0⟩

/-- first entry where two 0/1 matrices differ -/
def firstDiff (A B : List (List Bool)) : Option (Nat × Nat) :=
  ((List.range (max A.length B.length)).filterMap fun g =>
    let a := A.getD g []
    let b := B.getD g []
    ((List.range (max a.length b.length)).find? fun j => a[j]? != b[j]?).map fun j => (g, j)).head?

def jDiff : Option (Nat × Nat) → Json
  | none => Json.null
  | some (g, j) => jNats [g, j]

def jIDescrs (ds : List RF.IDescr) : Json :=
  Json.arr (ds.map fun d => match d with
    | none => Json.null
    | some (lo, hi) => Json.arr #[jRat lo, jRat hi]).toArray

/-- `{"op":"C15.paths","X":[[[num,den],..],..],"trees":[..],"M":[[0/1,..],..]}` — `X` is the matrix the tree sees
    (float32 values, exact) → `{"paths_equal":bool,"diff":[g,j]|null,"forest_ok":bool,"exts":[[rows],..]}`:
    the model's `decision_path` (`RF.pathMatrix`) against sklearn's, and the model's distinct node row sets -/
def pathsH : Handler := fun j => do
  let X ← (← arr (← j.getObjVal? "X")).mapM ratList
  let ts ← getTrees j
  let M ← getMatrix j "M"
  let Mm := RF.pathMatrix ts X
  pure (Json.mkObj [("paths_equal", Json.bool (Mm == M)), ("diff", jDiff (firstDiff Mm M)),
    ("forest_ok", Json.bool (RF.forestOK ts)), ("exts", jNatss (treeExtents Mm (RF.nNodes ts)))])

/-- `{"op":"C15.rfmv","D":[[[[n,d],[n,d]],..],..],"k":k,"cast":[[[n,d],[n,d]],..],"trees":[..],"M":[[0/1]..],
      "out":[[rows],..]}` — the many-valued context with interval cells, the float32 table, the fitted forest, sklearn's
    `decision_path` matrix and the extents returned by the implementation →
    `{"hyp":{"rect","point","cast","forest","k_pos"}, "paths_equal", "diff", "model":[[ext,[[lo,hi]|null,..]],..],
      "nonclosed":[[ext,closure],..], "has_top":bool}` (closure = the interval pattern-structure closure on the exact
    rationals, `RF.closure`) -/
def rfmvH : Handler := fun j => do
  let D : RF.IRows ← (← arr (← j.getObjVal? "D")).mapM fun row => do
    (← arr row).mapM fun c => do
      match (← arr c) with
      | [a, b] => pure ((← ratOf a), (← ratOf b))
      | _ => throw "cell must be [from, to]"
  let k ← getNat j "k"
  let tbl : List (Rat × Rat) ← (← arr (← j.getObjVal? "cast")).mapM fun p => do
    match (← arr p) with
    | [a, b] => pure ((← ratOf a), (← ratOf b))
    | _ => throw "cast entry must be [value, float32(value)]"
  let ts ← getTrees j
  let M ← getMatrix j "M"
  let exts ← (← arr (← j.getObjVal? "out")).mapM natList
  let cast := RF.castOfList tbl
  let Mm := RF.pathMatrix ts (RF.castRows cast (RF.toNumeric D))
  let model := RF.rfConceptsMV D k cast ts
  let nonclosed := exts.filter fun A => !(RF.closure D k A == A)
  pure (Json.mkObj [
    ("hyp", Json.mkObj [("rect", Json.bool (RF.rect D k)), ("point", Json.bool (RF.pointValued D)),
      ("cast", Json.bool (RF.castTableOK tbl D)), ("forest", Json.bool (RF.forestOK ts)),
      ("k_pos", Json.bool (decide (0 < k)))]),
    ("paths_equal", Json.bool (Mm == M)), ("diff", jDiff (firstDiff Mm M)),
    ("model", Json.arr (model.map fun c => Json.arr #[jNats c.1, jIDescrs c.2]).toArray),
    ("nonclosed", Json.arr (nonclosed.map fun A => Json.arr #[jNats A, jNats (RF.closure D k A)]).toArray),
    ("has_top", Json.bool (exts.contains (List.range D.length)))])

def handlers : List (String × Handler) :=
  [("C15.sofia", sofiaH), ("C15.tree", treeH), ("C15.rf", rfH), ("C15.paths", pathsH), ("C15.rfmv", rfmvH)]

end Fca.Drv.C15

/-
  Driver handlers for C15: run the Sofia model (identity tie order), judge an implementation
  output with the checker `holdsC15`, distinct columns of a decision-path matrix, random-forest concepts.
-/
import Fca.Drv.Util
import Fca.Model.SofiaApprox
import Fca.Spec.C15
open Lean
namespace Fca.Drv.C15
open Fca Fca.Drv Fca.SofiaApprox Fca.Spec.C15

def idTie : Tie := fun _ l => l

def jPairs (xs : List (List Nat × List Nat)) : Json :=
  Json.arr (xs.map fun c => Json.arr #[jNats c.1, jNats c.2]).toArray

/-- `out` is sent as `[[extent, intent|null], ...]` -/
def getOut (j : Json) : Except String (List (List Nat × Option (List Nat))) := do
  let xs ← arr (← j.getObjVal? "out")
  xs.mapM fun c => do
    let p ← arr c
    match p with
    | [e, i] =>
      let e ← natList e
      match i with
      | .null => pure (e, none)
      | _ => pure (e, some (← natList i))
    | _ => throw "out entry must be [extent, intent|null]"

/-- `{"op":"C15.sofia","be":..,"rows":..,"w":..,"lmax":L,"p":p,"q":q,"log":bool,"out":[[ext,int|null],..]}`
    → `{"model": [[ext,int],..] | {"err":..}, "model_fails":[..], "impl_fails":[..],
        "never_binds":bool, "n_meet":k, "model_masks_sorted":bool}` -/
def sofiaH : Handler := fun j => do
  let be ← getBackend j
  let t ← getTable j
  let lmax ← getNat j "lmax"
  let ms : MinSupp := ⟨← getNat j "p", ← getNat j "q"⟩
  let useLog ← getBool j "log"
  let out ← getOut j
  let K : Ctx := ⟨be, t, [], []⟩
  -- "via":"T" — wide table: concepts enumerated through the transposed table (`Fca.C15.checker_via_transpose`)
  let viaT := match getStr j "via" with | .ok "T" => true | _ => false
  let model := sofia idTie useLog ms lmax K
  let (mj, mfails) := match model with
    | .ok cs => (jPairs cs, if viaT then failsC15T t ms lmax cs else failsC15 t ms lmax cs)
    | .error e => (jErr e, ["model-error"])
  let exts := out.map (·.1)
  let pairs := out.filterMap fun c => c.2.map fun i => (c.1, i)
  let ifails := failsPairs t pairs ++ (if viaT then failsExtT t ms lmax exts else failsExt t ms lmax exts)
  pure (Json.mkObj [("model", mj), ("model_fails", jStrs mfails), ("impl_fails", jStrs ifails),
    ("never_binds", Json.bool (neverBinds idTie ms lmax t)),
    ("n_meet", Json.num (JsonNumber.fromNat (if viaT then meetingT t ms else meeting t ms).length))])

def getMatrix (j : Json) (k : String) : Except String (List (List Bool)) := do
  (← arr (← j.getObjVal? k)).mapM boolList

/-- `{"op":"C15.tree","M":[[0/1,..],..],"mw":nodes}` → `{"exts":[[rows],..]}` (first-occurrence order) -/
def treeH : Handler := fun j => do
  let M ← getMatrix j "M"
  let w ← getNat j "mw"
  pure (Json.mkObj [("exts", jNatss (treeExtents M w))])

/-- `{"op":"C15.rf","be":..,"rows":..,"w":..,"M":..,"mw":..,"out":[[ext,int|null],..]}` (`rows` = the
    context table, for a many-valued context its binarisation)
    → `{"model":[[ext,int],..], "impl_fails":[..], "nonclosed":[[ext, closure],..], "bottom":[..]}` -/
def rfH : Handler := fun j => do
  let be ← getBackend j
  let t ← getTable j
  let M ← getMatrix j "M"
  let w ← getNat j "mw"
  let out ← getOut j
  let K : Ctx := ⟨be, t, [], []⟩
  let exts := out.map (·.1)
  let pairs := out.filterMap fun c => c.2.map fun i => (c.1, i)
  let nonclosed := exts.filter fun A => !(Spec.closure t A == A)
  pure (Json.mkObj [("model", jPairs (rfConcepts K M w)),
    ("impl_fails", jStrs (failsPairs t pairs ++ failsRF t exts)),
    ("nonclosed", Json.arr (nonclosed.map fun A => Json.arr #[jNats A, jNats (Spec.closure t A)]).toArray),
    ("bottom", jNats (Spec.extAll t (Spec.intAll t [])))])

def handlers : List (String × Handler) := [("C15.sofia", sofiaH), ("C15.tree", treeH), ("C15.rf", rfH)]

end Fca.Drv.C15

/-
  Driver handlers for C19: calc_levels / fcart_layout models, the layout checker `holdsLayout`
  (fed with the IMPLEMENTATION's coordinates), the multipartite layout model (networkx placement in exact
  rationals, for given per-layer member orders), and the Mover model run over an operation history.
  Rationals travel as `[num, den]`.
-/
import Fca.Drv.Util
import Fca.Model.Layout
import Fca.Model.LayoutMP
import Fca.Model.Mover
open Lean
namespace Fca.Drv.C19
open Fca Fca.Drv Fca.Layout Fca.Mover

def ratOf (v : Json) : Except String Rat := do
  match (← arr v) with
  | [a, b] =>
    let n ← a.getInt?
    let d ← b.getNat?
    if d = 0 then throw "zero denominator" else pure (mkRat n d)
  | _ => throw "rational must be [num, den]"

def getRat (j : Json) (k : String) : Except String Rat := do ratOf (← j.getObjVal? k)

def jRat (r : Rat) : Json :=
  Json.arr #[Json.num (JsonNumber.fromInt r.num), Json.num (JsonNumber.fromNat r.den)]

def pairOf (v : Json) : Except String (Rat × Rat) := do
  match (← arr v) with
  | [a, b] => pure (← ratOf a, ← ratOf b)
  | _ => throw "position must be [x, y]"

def getPosList (j : Json) (k : String) : Except String (List (Rat × Rat)) := do
  (← arr (← j.getObjVal? k)).mapM pairOf

def jPos (ps : List (Rat × Rat)) : Json :=
  Json.arr (ps.map fun p => Json.arr #[jRat p.1, jRat p.2]).toArray

def getNatLists (j : Json) (k : String) : Except String (List (List Nat)) := do
  (← arr (← j.getObjVal? k)).mapM natList

def vErr (e : VErr) : Json := Json.mkObj [("err", Json.str e.name)]

def getPoset (j : Json) : Except String PosetData := do
  pure ⟨← getNatLists j "parents", ← getNatLists j "children", ← getNatList j "tops"⟩

/-- `{"op":"C19.levels","parents":[[..]],"children":[[..]],"tops":[..]}` → `{"levels":[..],"dict":[[..]]}` | err -/
def levelsH : Handler := fun j => do
  let P ← getPoset j
  match calcLevels P (defaultFuel P) with
  | .error e => pure (vErr e)
  | .ok (lv, ld) => pure (Json.mkObj [("levels", jNats lv), ("dict", jNatss ld)])

/-- exact priorities of the final placement (priority of an element only reads `id_on_lvl` of higher
    levels, which are final), for the harness to recognise float near-ties -/
def finalPrios (P : PosetData) (c : Rat) (dpth : Int) (cl : List Nat) (ld : List (List Nat)) (idOn : List Nat) : List Json :=
  (List.range cl.length).map fun i =>
    if cl.getD i 0 = 0 then jRat 0
    else match priority P c dpth cl ld idOn i with
      | .ok r => jRat r
      | .error _ => Json.null

/-- `{"op":"C19.fcart", poset.., "c":[n,d], "dpth":k, "cover":[[..]]}` →
    `{"pos":[[[n,d],[n,d]],..], "prios":[..], "holds":bool}` | err
    (`holds` = the checker's verdict on the MODEL's own output, for the given cover relation) -/
def fcartH : Handler := fun j => do
  let P ← getPoset j
  let c ← getRat j "c"
  let dpth ← getInt j "dpth"
  let cover ← getNatLists j "cover"
  match fcartLayout P (defaultFuel P) c dpth, calcLevels P (defaultFuel P) with
  | .ok pos, .ok (cl, ld) =>
    let idOn := match fcartLevels P c dpth cl ld ld 0 (List.replicate P.n 0) with
      | .ok x => x
      | .error _ => []
    -- optional "idon": the implementation's own ranks `id_on_lvl`; the exact priorities they induce let the harness
    -- recognise a float near-tie that was resolved differently (and its consequences on lower levels)
    let idImpl ← match j.getObjVal? "idon" with
      | .ok v => natList v
      | .error _ => pure idOn
    pure (Json.mkObj [("pos", jPos pos), ("prios", Json.arr (finalPrios P c dpth cl ld idOn).toArray),
      ("prios_impl", Json.arr (finalPrios P c dpth cl ld idImpl).toArray),
      ("holds", Json.bool (holdsLayout cover cl pos))])
  | .error e, _ => pure (vErr e)
  | _, .error e => pure (vErr e)

/-- the iteration order of a layer's set: the listed order whose members are exactly the group `g`
    (ascending listing); a group that is not listed keeps its ascending order -/
def ordOf (orders : List (List Nat)) (g : List Nat) : List Nat :=
  match orders.find? (fun o => sortNats o == g) with
  | some o => o
  | none => g

/-- `{"op":"C19.mpLayout", poset.., "orders":[[..],..], "cover":[[..]]}` →
    `{"pos":[[[n,d],[n,d]],..], "levels":[..], "layers":[[..],..], "ord_ok":bool, "holds":bool}` | err
    (`orders` = member order of each layer as the implementation iterated it; `layers` = the model's layers
    in that order; `ord_ok` = every layer of the model was given an order, i.e. the parameter `ord` of
    `multipartite_layout_exact` is a permutation on the layers; `holds` = the checker's verdict on the MODEL's
    own output for the given cover relation) -/
def mpLayoutH : Handler := fun j => do
  let P ← getPoset j
  let orders ← getNatLists j "orders"
  let cover ← getNatLists j "cover"
  match calcLevels P (defaultFuel P), multipartiteLayout P (defaultFuel P) (ordOf orders) with
  | .ok (cl, _), .ok pos =>
    let okOrd := (mpKeys cl).all fun k => orders.any fun o => sortNats o == mpGroup cl k
    pure (Json.mkObj [("pos", jPos pos), ("levels", jNats cl), ("layers", jNatss (mpLayers cl (ordOf orders))),
      ("ord_ok", Json.bool okOrd), ("holds", Json.bool (holdsLayout cover cl pos))])
  | .error e, _ => pure (vErr e)
  | _, .error e => pure (vErr e)

/-- `{"op":"C19.check","parents":[[..]],"levels":[..],"pos":[..]}` → `{"holds":bool, parts}` -/
def checkH : Handler := fun j => do
  let parents ← getNatLists j "parents"
  let lv ← getNatList j "levels"
  let pos ← getPosList j "pos"
  let n := parents.length
  let total := pos.length == n && lv.length == n
  let inj := distinctB pos
  let order := (List.range n).all (fun i =>
        (parents.getD i []).all fun p => decide (p < n) && decide (yOf pos i < yOf pos p))
  let lvls := (List.range n).all (goodLevel parents lv)
  pure (Json.mkObj [("holds", Json.bool (holdsLayout parents lv pos)), ("total", Json.bool total),
    ("inj", Json.bool inj), ("order", Json.bool order), ("levels", Json.bool lvls)])

def dirOf (s : String) : Except String Dir :=
  match s with
  | "v" => pure .v
  | "h" => pure .h
  | _ => throw s!"unknown direction {s}"

def opOf (v : Json) : Except String Op := do
  match (← getStr v "op") with
  | "swap" => pure (.swap (← getNat v "a") (← getNat v "b"))
  | "shift" => pure (.shift (← getNat v "i") (← getInt v "k"))
  | "jitter" => pure (.jitter (← getNat v "i") (← getRat v "dx"))
  | "place" => pure (.place (← getNat v "i") (← getRat v "x"))
  | s => throw s!"unknown mover op {s}"

def jState (m : St) : Json :=
  Json.mkObj [("pos", jPos (getPos m)), ("levels", jNats m.levels), ("order", jNats m.peersOrder),
    ("pos_levels", Json.arr (m.posLevels.map jRat).toArray),
    ("pos_peers", Json.arr (m.posPeers.map fun r => Json.arr (r.map jRat).toArray).toArray)]

/-- run the history; after each op report the state (or the exception and the unchanged state) -/
def runTrace (m : St) : List Op → List Json
  | [] => []
  | o :: os =>
    match step m o with
    | .ok m' => jState m' :: runTrace m' os
    | .error e => Json.mkObj [("err", Json.str e.name), ("pos", jPos (getPos m))] :: runTrace m os

/-- `{"op":"C19.mover","dir":"v|h","pos":[..],"ops":[{..}]}` → `{"init":state,"trace":[state|err]}` -/
def moverH : Handler := fun j => do
  let d ← dirOf (← getStr j "dir")
  let pos ← getPosList j "pos"
  let ops ← (← arr (← j.getObjVal? "ops")).mapM opOf
  match setPos d pos with
  | .error e => pure (vErr e)
  | .ok m => pure (Json.mkObj [("init", jState m), ("trace", Json.arr (runTrace m ops).toArray)])

def handlers : List (String × Handler) :=
  [("C19.levels", levelsH), ("C19.fcart", fcartH), ("C19.mpLayout", mpLayoutH), ("C19.check", checkH),
   ("C19.mover", moverH)]

end Fca.Drv.C19

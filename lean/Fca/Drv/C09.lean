/-
  Driver handler for C09: run a whole history on the poset model and on the `Fresh` specification.

  request  {"op":"C09.run","order":"subset|divides","elems":[..],"use_cache":bool,
            "children_dict":null|[[k,[..]],..],"ops":[[name,args..],..],"observe":"none|last|all","state":bool}
  reply    {"init_err":E} | {"init_check":bool,"steps":[{"out":O,"fresh":O,"ok":bool,"inv":bool,"obs_eq":bool,"obs":[O..],"state":{..}}..]}
  where `out` = the model's output, `fresh` = `Fresh.answer` on the current elements, `ok` = `opsOk` so far
  (the theorem's hypothesis), `obs` = the Fresh answers to the full observation (all leq pairs, the four
  relations of every index, tops, bottoms, join/meet of everything) *after* the step, and `obs_eq` = whether the
  model answers the same observation identically from its current state (run on a copy: the state is not kept).
  Elements are naturals: bitmasks under ⊆ (`subset`) or positive integers under divisibility (`divides`).
-/
import Fca.Drv.Util
import Fca.Model.Poset
import Fca.Spec.Poset
open Lean
namespace Fca.Drv.C09
open Fca Fca.Drv Fca.Poset

def leqOf (order : String) : Except String (Nat → Nat → Bool) :=
  match order with
  | "subset" => pure fun a b => (a &&& b) == a
  | "divides" => pure fun a b => a != 0 && b % a == 0
  | s => throw s!"unknown order {s}"

def parseDirName (s : String) : Option (Dir × Bool) :=   -- (direction, closed?)
  match s with
  | "descendants" => some (.desc, true)
  | "ancestors" => some (.anc, true)
  | "children" => some (.desc, false)
  | "parents" => some (.anc, false)
  | _ => none

def parseOp (j : Json) : Except String (Op Nat) := do
  let a ← arr j
  match a with
  | [] => throw "empty op"
  | nm :: args =>
    let nm ← nm.getStr?
    match nm, args with
    | "leq", [i, k] => pure (.leq (← i.getNat?) (← k.getNat?))
    | "tops", [] => pure (.extremes .anc)
    | "bottoms", [] => pure (.extremes .desc)
    | "join", [S] => pure (.bound .anc (← natList S))
    | "meet", [S] => pure (.bound .desc (← natList S))
    | "index", [e] => pure (.index (← e.getNat?))
    | "add", [e, f] => pure (.add (← e.getNat?) (← boolOf f))
    | "del", [i] => pure (.del (← i.getNat?))
    | "remove", [e] => pure (.remove (← e.getNat?))
    | "eq", [O] => pure (.eqOther (← natList O))
    | "fill", [k] =>
      match (← k.getStr?) with
      | "leq" => pure (.fillUp .leq)
      | "desc" => pure (.fillUp .desc)
      | "anc" => pure (.fillUp .anc)
      | "chil" => pure (.fillUp .chil)
      | "par" => pure (.fillUp .par)
      | "all" => pure (.fillUp .all)
      | s => throw s!"unknown fill kind {s}"
    | _, [i] =>
      match parseDirName nm with
      | some (d, true) => pure (.closed d (← i.getNat?))
      | some (d, false) => pure (.direct d (← i.getNat?))
      | none => throw s!"unknown op {nm}"
    | _, _ => throw s!"unknown op {nm}"

def jOut : Out → Json
  | .bool b => Json.bool b
  | .set l => jNats l
  | .list l => Json.mkObj [("l", jNats l)]
  | .optNat none => Json.mkObj [("o", Json.null)]
  | .optNat (some n) => Json.mkObj [("o", Json.num (JsonNumber.fromNat n))]
  | .nat n => Json.num (JsonNumber.fromNat n)
  | .unit => Json.null
  | .err e => jErr e

/-- the full observation of a poset over `E`: all comparisons, the four relations of every index, tops, bottoms,
    join/meet of everything; for at most 4 elements also join/meet of every pair, the index of every element and
    equality with the reversed poset -/
def obsOps (E : List Nat) : List (Op Nat) :=
  let n := E.length
  let r := List.range n
  (r.flatMap fun i => r.map fun j => Op.leq i j)
  ++ (r.flatMap fun i => [Op.closed .desc i, Op.closed .anc i, Op.direct .desc i, Op.direct .anc i])
  ++ [Op.extremes .anc, Op.extremes .desc, Op.bound .anc [], Op.bound .desc []]
  ++ (if n ≤ 4 then
        (r.flatMap fun i => (r.filter (fun j => i < j)).flatMap fun j => [Op.bound .anc [i, j], Op.bound .desc [i, j]])
        ++ E.map (fun e => Op.index e) ++ [Op.eqOther E.reverse]
      else [])

def lexLt : List Nat → List Nat → Bool
  | [], [] => false
  | [], _ => true
  | _, [] => false
  | a :: as, b :: bs => a < b || (a == b && lexLt as bs)

def jCache (c : Cache) : Json :=
  let rows := c.map fun kv => kv.1 :: sortSet kv.2
  let rows := (rows.toArray.qsort lexLt).toList
  Json.arr (rows.map jNats).toArray

def jState (s : St Nat) : Json :=
  let lq := s.leqC.map fun kv => [kv.1.1, kv.1.2, if kv.2 then 1 else 0]
  let lq := (lq.toArray.qsort lexLt).toList
  Json.mkObj [("elems", jNats s.elems), ("leq", Json.arr (lq.map jNats).toArray),
    ("desc", jCache s.descC), ("anc", jCache s.ancC), ("chil", jCache s.chilC), ("par", jCache s.parC)]

def parseCD (j : Json) : Except String Cache := do
  (← arr j).mapM fun kv => do
    match (← arr kv) with
    | [k, vs] => pure ((← k.getNat?), (← natList vs))
    | _ => throw "children_dict: expected [k,[..]]"

def runH : Handler := fun j => do
  let leq ← leqOf (← getStr j "order")
  let elems ← getNatList j "elems"
  let useCache ← getBool j "use_cache"
  let ops ← (← arr (← j.getObjVal? "ops")).mapM parseOp
  let observe := (getStr j "observe").toOption.getD "none"     -- "none" | "last" | "all"
  let wantState := (getBool j "state").toOption.getD false
  let ord : List Nat → List Nat := sortSet
  let s0 ← match j.getObjVal? "children_dict" with
    | .ok .null | .error _ => pure (Except.ok (init elems useCache) : Except PyErr (St Nat))
    | .ok cdj => do
      let cd ← parseCD cdj
      if useCache then pure (initCD 200000 elems cd) else pure (Except.ok (init elems false))
  match s0 with
  | .error e => pure (Json.mkObj [("init_err", Json.str e.name)])
  | .ok s0 =>
    let rec go (s : St Nat) (ok : Bool) : List (Op Nat) → List Json
      | [] => []
      | op :: rest =>
        let ok := ok && Fresh.opOk s.elems s.useCache op
        let fr := Fresh.answer leq s.elems op
        let r := step leq ord s op
        let s' := r.1
        -- `inv`: the executable invariant check (sound by `Fca.C09.inv_of_check`) on the state after the step;
        -- it certifies in particular the states reached through `add(·, fill_up_cache=True)`, the one
        -- operation the step theorems do not cover
        let fields := [("out", jOut r.2), ("fresh", jOut fr), ("ok", Json.bool ok),
          ("inv", Json.bool (Fresh.invCheck leq s'))]
        let fields := if observe == "all" || (observe == "last" && rest.isEmpty) then
            let oo := obsOps s'.elems
            let mo := (run leq ord s' oo).2
            let fo := Fresh.runFresh leq s'.elems oo
            fields ++ [("obs_eq", Json.bool (mo == fo)), ("obs", Json.arr (fo.map jOut).toArray)]
              ++ (if mo == fo then [] else [("obs_model", Json.arr (mo.map jOut).toArray)])
          else fields
        let fields := if wantState then fields ++ [("state", jState s')] else fields
        Json.mkObj fields :: go s' ok rest
    let init := if wantState then [("state0", jState s0)] else []
    -- certify the start state (theorem `Fca.C09.inv_of_check`): every cache entry is the Fresh value
    let init := init ++ [("init_check", Json.bool (Fresh.invCheck leq s0))]
    pure (Json.mkObj (init ++ [("steps", Json.arr (go s0 true ops).toArray)]))

def handlers : List (String × Handler) := [("C09.run", runH)]

end Fca.Drv.C09

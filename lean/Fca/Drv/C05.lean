/-
  Driver handlers for C05: run one table operation on the three backend models and on the
  specification; run one context-level operation on the three backends and on the specification.

  Request  `{"op":"C05.run","rows":[[0,1,..],..],"w":width,"o":<opdesc>}`
  Reply    `{"model":[<res lists>,<res bitarray>,<res numpy>],"spec":<res>}`

  opdesc: `{"k":"shape"}` `{"k":"tolist"}` `{"k":"T"}` `{"k":"inv"}`
          `{"k":"getitem","item":[key]|[key,key]}`  key = n | {"idx":[..]} | {"sl":[a|null,b|null,c|null]}
          `{"k":"all"|"any"|"sum","axis":null|int,"r":null|[..],"c":null|[..]}`
          `{"k":"alli"|"anyi","axis":int,"r":..,"c":..}`
          `{"k":"and"|"or","orows":[[..]],"ow":w}`  `{"k":"eq","obe":backend,"orows":..,"ow":..}`
          `{"k":"conv","dst":backend}`

  Request  `{"op":"C05.ctx","rows":..,"w":..,"objs":[..],"attrs":[..],"o":<copdesc>}`
  Reply    `{"model":[<cres>,<cres>,<cres>],"spec":<cobs>}`
  copdesc: `{"k":"getitem","item":..}` `{"k":"T"}` `{"k":"inv"}`
           `{"k":"eq","obe":..,"orows":..,"ow":..,"oobjs":[..],"oattrs":[..]}`

  Request  `{"op":"C05.slice","sl":[a,b,c],"len":n}` → `{"idx":[..]}`
-/
import Fca.Drv.Util
import Fca.Model.BinTableOps
import Fca.Spec.Table
open Lean
namespace Fca.Drv.C05
open Fca Fca.Drv

def optInt (v : Json) : Except String (Option Int) :=
  match v with
  | .null => pure none
  | _ => do pure (some (← v.getInt?))

def getSel (v : Json) : Except String Sel := do
  match v.getObjVal? "idx" with
  | .ok xs => pure (.idx (← natList xs))
  | .error _ =>
    let a ← arr (← v.getObjVal? "sl")
    match a with
    | [x, y, z] =>
      let st ← optInt z
      if st = some 0 then throw "slice step 0 is outside the model (Python raises ValueError)"
      pure (.slice (← optInt x) (← optInt y) st)
    | _ => throw "slice needs three entries"

def getKey (v : Json) : Except String Key :=
  match v with
  | .num _ => do pure (.int (← v.getNat?))
  | _ => do pure (.sel (← getSel v))

def getItem (v : Json) : Except String Item := do
  match (← arr v) with
  | [k] => pure (.one (← getKey k))
  | [r, c] => pure (.two (← getKey r) (← getKey c))
  | _ => throw "item needs one or two keys"

def getOptInt (j : Json) (k : String) : Except String (Option Int) :=
  match j.getObjVal? k with
  | .error _ => pure none
  | .ok v => optInt v

def getOp (o : Json) : Except String Op := do
  let k ← getStr o "k"
  match k with
  | "shape" => pure .shape
  | "tolist" => pure .toList
  | "T" => pure .transpose
  | "inv" => pure .invert
  | "getitem" => pure (.getitem (← getItem (← o.getObjVal? "item")))
  | "all" => pure (.all (← getOptInt o "axis") (← getOptNatList o "r") (← getOptNatList o "c"))
  | "any" => pure (.any (← getOptInt o "axis") (← getOptNatList o "r") (← getOptNatList o "c"))
  | "sum" => pure (.sum (← getOptInt o "axis") (← getOptNatList o "r") (← getOptNatList o "c"))
  | "alli" => pure (.allI (← getInt o "axis") (← getOptNatList o "r") (← getOptNatList o "c"))
  | "anyi" => pure (.anyI (← getInt o "axis") (← getOptNatList o "r") (← getOptNatList o "c"))
  | "and" => pure (.and (← getTable o "orows" "ow"))
  | "or" => pure (.or (← getTable o "orows" "ow"))
  | "eq" => pure (.eq (← getBackend o "obe") (← getTable o "orows" "ow"))
  | "conv" => pure (.convert (← getBackend o "dst"))
  | s => throw s!"unknown C05 op kind {s}"

def jTable (t : Table) : Json :=
  Json.mkObj [("shape", jNats [t.height, t.width]), ("rows", jBoolss t.data)]

def jRes : Res → Json
  | .bool b => Json.mkObj [("bool", Json.num (JsonNumber.fromNat (if b then 1 else 0)))]
  | .nat n => Json.mkObj [("nat", Json.num (JsonNumber.fromNat n))]
  | .bools xs => Json.mkObj [("bools", jBools xs)]
  | .nats xs => Json.mkObj [("nats", jNats xs)]
  | .shape h w => Json.mkObj [("shape", jNats [h, w])]
  | .rows d => Json.mkObj [("rows", jBoolss d)]
  | .table t => Json.mkObj [("table", jTable t)]
  | .err e => jErr e

def backends : List Backend := [.lists, .bitarray, .numpy]

def runH : Handler := fun j => do
  let t ← getTable j
  let op ← getOp (← j.getObjVal? "o")
  pure (Json.mkObj [("model", Json.arr (backends.map fun b => jRes (run b op t)).toArray),
                    ("spec", jRes (Spec.Table.run op t))])

def beName : Backend → String
  | .lists => "BinTableLists" | .bitarray => "BinTableBitarray" | .numpy => "BinTableNumpy"

def jCRes : CRes → Json
  | .bool b => Json.mkObj [("bool", Json.num (JsonNumber.fromNat (if b then 1 else 0)))]
  | .ctx K => Json.mkObj [("ctx", Json.mkObj [("be", Json.str (beName K.backend)), ("table", jTable K.table),
      ("objs", jStrs K.objNames), ("attrs", jStrs K.attrNames)])]
  | .err e => Json.mkObj [("err", Json.str e.name)]

def jCObs : Spec.Table.CObs → Json
  | .bool b => Json.mkObj [("bool", Json.num (JsonNumber.fromNat (if b then 1 else 0)))]
  | .ctx t objs attrs => Json.mkObj [("ctx", Json.mkObj [("table", jTable t), ("objs", jStrs objs),
      ("attrs", jStrs attrs)])]
  | .err e => Json.mkObj [("err", Json.str e.name)]

def getCOp (o : Json) : Except String COp := do
  let k ← getStr o "k"
  match k with
  | "getitem" => pure (.getitem (← getItem (← o.getObjVal? "item")))
  | "T" => pure .transpose
  | "inv" => pure .invert
  | "eq" =>
    pure (.eq ⟨← getBackend o "obe", ← getTable o "orows" "ow", ← getStrList o "oobjs", ← getStrList o "oattrs"⟩)
  | s => throw s!"unknown C05 context op kind {s}"

def ctxH : Handler := fun j => do
  let t ← getTable j
  let objs ← getStrList j "objs"
  let attrs ← getStrList j "attrs"
  let op ← getCOp (← j.getObjVal? "o")
  pure (Json.mkObj [("model", Json.arr (backends.map fun b => jCRes (Ctx.runC ⟨b, t, objs, attrs⟩ op)).toArray),
                    ("spec", jCObs (Spec.Table.runC t objs attrs op))])

def sliceH : Handler := fun j => do
  let s ← getSel j
  pure (Json.mkObj [("idx", jNats (s.resolve (← getNat j "len")))])

def handlers : List (String × Handler) := [("C05.run", runH), ("C05.ctx", ctxH), ("C05.slice", sliceH)]

end Fca.Drv.C05

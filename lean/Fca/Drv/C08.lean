/-
  Driver handlers for C08: run the concept comparison / equality / hash-key / setattr / from_objects
  models, the extent-inclusion specification, and a law checker that judges the implementation's own
  answer matrices (reflexive, antisymmetric up to ==, transitive, < strict part, == ⇒ equal hash).
-/
import Fca.Drv.Util
import Fca.Model.Concept
import Fca.Spec.Galois
open Lean
namespace Fca.Drv.C08
open Fca Fca.Drv

def cErr (e : CErr) : Json := Json.mkObj [("err", Json.str e.name), ("base", Json.str e.base.name)]

/-- comparison answers are printed as 0/1, a refusal as the exception class name -/
def jCmp : Except CErr Bool → Json
  | .ok b => Json.num (JsonNumber.fromNat (if b then 1 else 0))
  | .error e => Json.str e.name

def getOptInt (j : Json) (k : String) : Except String (Option Int) := do
  match j.getObjVal? k with
  | .error _ => pure none
  | .ok .null => pure none
  | .ok v => pure (some (← v.getInt?))

def getBoolD (j : Json) (k : String) (d : Bool) : Except String Bool :=
  match j.getObjVal? k with
  | .error _ => pure d
  | .ok v => boolOf v

/-- `{"e":[extent_i in the stored order],"h":int|null,"m":bool}` -/
def getConcept (j : Json) : Except String Concept := do
  let e ← getNatList j "e"
  let h ← getOptInt j "h"
  let m ← getBoolD j "m" false
  pure ⟨e, [], [], [], h, m⟩

def toP (c : Concept) : PConcept Unit := ⟨c.extentI, c.extent, (), c.contextHash⟩

def subsetB (a b : List Nat) : Bool := a.all fun g => b.contains g

/-- the specification value of a comparison (`none` = must be refused) -/
def specLe (pattern : Bool) (a b : Concept) : Option Bool :=
  if a.contextHash != b.contextHash then none
  else if !pattern && a.isMonotone != b.isMonotone then none
  else if !pattern && a.isMonotone then some (subsetB b.extentI a.extentI)
  else some (subsetB a.extentI b.extentI)

def specEq (pattern : Bool) (a b : Concept) : Option Bool :=
  if a.contextHash != b.contextHash then none
  else if !pattern && a.isMonotone != b.isMonotone then none
  else some (subsetB a.extentI b.extentI && subsetB b.extentI a.extentI)

def specLt (pattern : Bool) (a b : Concept) : Option Bool :=
  match specLe pattern a b, specLe pattern b a with
  | some x, some y => some (x && !y)
  | _, _ => none

def jSpec : Option Bool → Json
  | none => Json.str "refused"
  | some b => Json.num (JsonNumber.fromNat (if b then 1 else 0))

def matrix (pool : List Concept) (f : Concept → Concept → Json) : Json :=
  Json.arr (pool.map fun a => Json.arr (pool.map fun b => f a b).toArray).toArray

/-- an answer matrix of the implementation: 0/1, anything else (a string) = raised -/
def getMatrix (j : Json) (k : String) : Except String (Array (Array Int)) := do
  let rows ← arr (← j.getObjVal? k)
  let rs ← rows.mapM fun r => do
    let cells ← arr r
    pure (cells.map fun c => match c.getInt? with | .ok v => v | .error _ => (-1 : Int)).toArray
  pure rs.toArray

def cell (m : Array (Array Int)) (i j : Nat) : Int := (m.getD i #[]).getD j (-1)

/-- the partial-order / strict-part / hash laws, checked on the implementation's own matrices;
    returns the violated instances (at most 5) -/
def lawViolations (n : Nat) (le lt eq : Array (Array Int)) (hash : Array Int) : List String := Id.run do
  let mut out : List String := []
  for i in [0:n] do
    if cell le i i != 1 then out := s!"reflexivity: le[{i}][{i}] != True" :: out
    if cell eq i i != 1 then out := s!"reflexivity: eq[{i}][{i}] != True" :: out
  for i in [0:n] do
    for j in [0:n] do
      let lij := cell le i j
      let lji := cell le j i
      if lij == 1 && lji == 1 && cell eq i j != 1 then
        out := s!"antisymmetry: {i}<={j} and {j}<={i} but not {i}=={j}" :: out
      if cell eq i j == 1 && hash.getD i 0 != hash.getD j 0 then
        out := s!"hash: {i}=={j} but hash differs" :: out
      if cell eq i j == 1 && (lij != 1 || lji != 1) then
        out := s!"eq-le: {i}=={j} but not both <=" :: out
      if lij != -1 && lji != -1 then
        let want : Int := if lij == 1 && lji != 1 then 1 else 0
        if cell lt i j != want then out := s!"strict part: lt[{i}][{j}] is not (<= and not >=)" :: out
      if lij == 1 then
        for k in [0:n] do
          if cell le j k == 1 && cell le i k != 1 then
            out := s!"transitivity: {i}<={j}<={k} but not {i}<={k}" :: out
    if out.length > 5 then break
  return out.reverse.take 5

/-- `{"op":"C08.cmp","kind":"formal"|"pattern","pool":[concept..],
     optional "impl_le","impl_lt","impl_eq" (matrices), "impl_hash":[ints]}`
    → model matrices `eq ne le lt`, hash keys, spec matrices, `laws` (violations on the impl matrices) -/
def cmp : Handler := fun j => do
  let kind ← getStr j "kind"
  let pattern := kind == "pattern"
  let pool ← (← arr (← j.getObjVal? "pool")).mapM getConcept
  let (feq, fne, fle, flt) : (Concept → Concept → Json) × (Concept → Concept → Json) ×
      (Concept → Concept → Json) × (Concept → Concept → Json) :=
    if pattern then
      (fun a b => jCmp (PConcept.eq (toP a) (toP b)), fun a b => jCmp (PConcept.ne (toP a) (toP b)),
       fun a b => jCmp (PConcept.le (toP a) (toP b)), fun a b => jCmp (PConcept.lt (toP a) (toP b)))
    else
      (fun a b => jCmp (Concept.eq a b), fun a b => jCmp (Concept.ne a b),
       fun a b => jCmp (Concept.le a b), fun a b => jCmp (Concept.lt a b))
  let keys := Json.arr (pool.map fun c =>
    if pattern then
      let (ks, h) := PConcept.hashKey (toP c)
      Json.arr #[jNats ks, match h with | none => Json.null | some v => Json.num (JsonNumber.fromInt v)]
    else jNats (Concept.hashKey c)).toArray
  let laws ← match j.getObjVal? "impl_le" with
    | .error _ => pure Json.null
    | .ok _ => do
      let le ← getMatrix j "impl_le"
      let lt ← getMatrix j "impl_lt"
      let eq ← getMatrix j "impl_eq"
      let hs ← (← arr (← j.getObjVal? "impl_hash")).mapM (·.getInt?)
      pure (jStrs (lawViolations pool.length le lt eq hs.toArray))
  pure (Json.mkObj [
    ("eq", matrix pool feq), ("ne", matrix pool fne), ("le", matrix pool fle), ("lt", matrix pool flt),
    ("key", keys),
    ("spec_eq", matrix pool fun a b => jSpec (specEq pattern a b)),
    ("spec_le", matrix pool fun a b => jSpec (specLe pattern a b)),
    ("spec_lt", matrix pool fun a b => jSpec (specLt pattern a b)),
    ("nodup", jBools (pool.map fun c => decide c.extentI.Nodup)),
    ("laws", laws)])

/-- `{"op":"C08.setattr","kind":"formal"|"pattern","key":name,"init":bool,"mode":"assign"|"del-assign"}`
    → `{"ok":1}` | `{"err":..}`; with `del-assign` first `{"del": …}` then `{"set": …}` -/
def setattr : Handler := fun j => do
  let kind ← getStr j "kind"
  let key ← getStr j "key"
  let init ← getBoolD j "init" false
  let mode := (getStr j "mode").toOption.getD "assign"
  let present ← getBoolD j "present" true
  let res : Except CErr Unit → Json := fun r =>
    match r with
    | .ok () => Json.mkObj [("ok", Json.num 1)]
    | .error e => cErr e
  let dict0 := if init then [] else Concept.dictAfterInit
  if mode == "del-assign" then
    if kind == "pattern" then
      pure (Json.mkObj [("del", res (PConcept.delattr present key)), ("set", res (PConcept.setattr key))])
    else
      match Concept.delattr dict0 key with
      | .ok d => pure (Json.mkObj [("del", res (.ok ())), ("set", res (Concept.setattr d key))])
      | .error e => pure (Json.mkObj [("del", cErr e), ("set", res (Concept.setattr dict0 key))])
  else
    pure (res (if kind == "pattern" then PConcept.setattr key else Concept.setattr dict0 key))

def getArg (j : Json) : Except String ObjArg := do
  let a ← j.getObjVal? "arg"
  match a.getObjVal? "names" with
  | .ok v => pure (.names (← strList v))
  | .error _ => pure (.idx (← natList (← a.getObjVal? "idx")))

def jOptInt : Option Int → Json
  | none => Json.null
  | some v => Json.num (JsonNumber.fromInt v)

/-- `{"op":"C08.from_objects","be","rows","w","objs","attrs","h","arg":{"names":[..]}|{"idx":[..]},
     "is_extent","is_monotone"}` → `{"ok":{fields}}`|`{"err":..}` and, when the argument resolves,
    `"spec":{"extent_i","intent_i"}` = `(ext (int A), int A)` of `Spec.Galois` -/
def fromObjects : Handler := fun j => do
  let be ← getBackend j
  let t ← getTable j
  let K : Ctx := ⟨be, t, ← getStrList j "objs", ← getStrList j "attrs"⟩
  let h ← getInt j "h"
  let arg ← getArg j
  let isExtent ← getBoolD j "is_extent" false
  let isMono ← getBoolD j "is_monotone" false
  let model := match Concept.fromObjects arg K h isExtent isMono with
    | .error e => cErr e
    | .ok c => Json.mkObj [("ok", Json.mkObj [
        ("extent_i", jNats c.extentI), ("extent", jStrs c.extent), ("intent_i", jNats c.intentI),
        ("intent", jStrs c.intent), ("context_hash", jOptInt c.contextHash),
        ("is_monotone", Json.bool c.isMonotone)])]
  let A : Option (List Nat) := match arg with
    | .idx xs => some xs
    | .names [] => some []
    | .names xs => match namesIndex K.objNames xs with | .ok is => some is | .error _ => none
  let spec := match A with
    | none => Json.null
    | some A =>
      let I := Spec.int t A (List.range t.width)
      let E := if isExtent then A else Spec.ext t I (List.range t.height)
      Json.mkObj [("extent_i", jNats E), ("intent_i", jNats I)]
  pure (Json.mkObj [("model", model), ("spec", spec)])

def getIv (v : Json) : Except String Interval.Iv := do
  let xs ← intList v
  match xs with
  | [a, b] => pure (a, b)
  | _ => throw "interval must be [lo, hi]"

def jIv : Option Interval.Iv → Json
  | none => Json.null
  | some (a, b) => jInts [a, b]

/-- `{"op":"C08.pfrom","cols":[[[lo,hi]…] per column],"objs":[names],"h","arg","is_extent","is_monotone"}`
    → PatternConcept.from_objects on an all-`IntervalPS` many-valued context -/
def pFromObjects : Handler := fun j => do
  let cols ← (← arr (← j.getObjVal? "cols")).mapM fun c => do (← arr c).mapM getIv
  let objs ← getStrList j "objs"
  let h ← getInt j "h"
  let arg ← getArg j
  let isExtent ← getBoolD j "is_extent" false
  let isMono ← getBoolD j "is_monotone" false
  let r := PConcept.fromObjects (Interval.mvIntentionI cols) (Interval.mvExtensionI objs.length cols) objs
    arg h isExtent isMono
  match r with
  | .error e => pure (Json.mkObj [("model", cErr e)])
  | .ok c => pure (Json.mkObj [("model", Json.mkObj [("ok", Json.mkObj [
      ("extent_i", jNats c.extentI), ("extent", jStrs c.extent),
      ("intent_i", Json.arr (c.intentI.map jIv).toArray), ("context_hash", jOptInt c.contextHash)])])])

def handlers : List (String × Handler) :=
  [("C08.cmp", cmp), ("C08.setattr", setattr), ("C08.from_objects", fromObjects), ("C08.pfrom", pFromObjects)]

end Fca.Drv.C08

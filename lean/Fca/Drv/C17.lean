/-
  Driver handlers for C17: run the model of `trace_context`, the specification (describing concepts and
  their minimal elements) and the decidable hypotheses of the theorems.
-/
import Fca.Drv.Util
import Fca.Model.Trace
import Fca.Spec.Trace
import Fca.Spec.TraceMV
open Lean
namespace Fca.Drv.C17
open Fca Fca.Drv Fca.Trace

def natListList (v : Json) : Except String (List (List Nat)) := do
  (← arr v).mapM natList

def getLat (j : Json) : Except String Lat := do
  let children ← natListList (← j.getObjVal? "children")
  let supports ← getNatList j "supports"
  let top ← getNat j "top"
  let mono ← getBool j "mono"
  pure { children := children, supports := supports, top := top, isMonotone := mono }

def jKey : Key → Json
  | .idx i => Json.num (JsonNumber.fromNat i)
  | .name s => Json.str s

def jDict (d : Dict) : Json :=
  Json.arr (d.map fun p => Json.arr #[jKey p.1, jNats (sortNats p.2)]).toArray

def jResult : Except PyErr (Dict × Dict) → Json
  | .ok (b, t) => Json.mkObj [("bottom", jDict b), ("traced", jDict t)]
  | .error e => jErr e

def jSets (xs : List (List Nat)) : Json := jNatss (xs.map sortNats)

/-- `{"op":"C17.trace","be":..,"trows":..,"tw":..,"exts":..,"ints":..,"children":..,"supports":..,"top":..,
     "mono":..,"rows":..,"w":..,"names":[..],"useidx":bool}`
    → `{"model": {"bottom":[[key,[..]],..],"traced":..} | {"err":..},
        "spec": {"bottom":[[..] per object],"traced":[[..] per object]}, "hyp": bool}` -/
def traceH : Handler := fun j => do
  let be ← getBackend j
  let tTrain ← getTable j "trows" "tw"
  let exts ← natListList (← j.getObjVal? "exts")
  let ints ← natListList (← j.getObjVal? "ints")
  let L ← getLat j
  let t ← getTable j
  let names ← getStrList j "names"
  let useIdx ← getBool j "useidx"
  let K : Ctx := ⟨be, t, names, []⟩
  let cs := exts.zip ints
  let model := traceFormal L (cs.map Prod.snd) K useIdx
  let objs := List.range t.height
  let specT := objs.map fun g => Spec.describing t (cs.map Prod.snd) g
  let specB := objs.map fun g => Spec.minimalDescribing t (cs.map Prod.fst) (cs.map Prod.snd) g
  let hyp : Bool := decide (exts.length = ints.length) && decide (Spec.IsTraceLatticeOf tTrain cs L) &&
    decide t.WF && decide (t.width = tTrain.width) && decide (names.length = t.height)
  let keys := objs.map fun g => jKey (Spec.keyOf useIdx names g)
  pure (Json.mkObj [("model", jResult model),
    ("spec", Json.mkObj [("bottom", jSets specB), ("traced", jSets specT), ("keys", Json.arr keys.toArray)]),
    ("hyp", Json.bool hyp)])

def optInterval (v : Json) : Except String (Option (Int × Int)) :=
  match v with
  | .null => pure none
  | _ => do
    let xs ← intList v
    match xs with
    | [a, b] => pure (some (a, b))
    | _ => throw "interval must be [lo, hi] or null"

def descOf (v : Json) : Except String (List (Nat × Option (Int × Int))) := do
  (← arr v).mapM fun pd => do
    let xs ← arr pd
    match xs with
    | [p, d] => pure (← p.getNat?, ← optInterval d)
    | _ => throw "description item must be [ps_i, interval]"

def intervalOf (v : Json) : Except String (Int × Int) := do
  let xs ← intList v
  match xs with
  | [a, b] => pure (a, b)
  | _ => throw "cell must be [lo, hi]"

/-- `{"op":"C17.tracemv","exts":..,"ints":[[[p,null|[lo,hi]],..],..],"children":..,"supports":..,"top":..,
     "mono":..,"cols":[[[lo,hi],..],..],"n":..,"names":[..],"useidx":bool
     [,"tcols":[[[lo,hi],..],..],"tn":..]}` → as `C17.trace`, plus `"hypfull"`: the hypotheses of
    `trace_mv_exact` (`IsMVTraceLatticeOf` w.r.t. the training context `tcols`/`tn`, `IsTracedMVCtx`) when the
    training context is sent, `null` otherwise -/
def traceMVH : Handler := fun j => do
  let exts ← natListList (← j.getObjVal? "exts")
  let ints ← (← arr (← j.getObjVal? "ints")).mapM descOf
  let L ← getLat j
  let cols ← (← arr (← j.getObjVal? "cols")).mapM fun c => do (← arr c).mapM intervalOf
  let n ← getNat j "n"
  let names ← getStrList j "names"
  let useIdx ← getBool j "useidx"
  let K : MVCtx := ⟨cols, n, names⟩
  let model := traceMV L ints K useIdx
  let extOf := fun c => mvExtensionI K (ints.getD c [])
  let objs := List.range n
  let descr := fun g => (List.range exts.length).filter fun i => Spec.mvSatisfies K (ints.getD i []) g
  let specT := objs.map descr
  let specB := objs.map fun g => Spec.minimalOf exts (descr g)
  -- hypotheses of `trace_mv_exact` / `trace_mv_bottom_minimal` / `trace_mv_keys`: the lattice is a list of genuine
  -- pattern concepts of the training context, the traced context is well-formed over as many columns
  let hypFull : Json ← match j.getObjVal? "tcols" with
    | .ok tc => do
      let tcols ← (← arr tc).mapM fun c => do (← arr c).mapM intervalOf
      let tn ← getNat j "tn"
      let KT : MVCtx := ⟨tcols, tn, []⟩
      pure (Json.bool (decide (exts.length = ints.length) &&
        decide (Spec.IsMVTraceLatticeOf KT (exts.zip ints) L) && decide (Spec.IsTracedMVCtx KT K)))
    | .error _ => pure Json.null
  -- hypotheses of `trace_any_context` (generic form; `Upward` is implied by `hypfull`: `upward_mv`), and the
  -- model's extension = the satisfaction spec
  let extOk : Bool := (List.range exts.length).all fun i =>
    extOf i == objs.filter fun g => Spec.mvSatisfies K (ints.getD i []) g
  let hyp : Bool := decide (exts.length = ints.length) && decide (Spec.IsOrderData exts L) &&
    decide (names.length = n) && Spec.upwardB exts extOf n && extOk
  let keys := objs.map fun g => jKey (Spec.keyOf useIdx names g)
  pure (Json.mkObj [("model", jResult model),
    ("spec", Json.mkObj [("bottom", jSets specB), ("traced", jSets specT), ("keys", Json.arr keys.toArray)]),
    ("hyp", Json.bool hyp), ("hypfull", hypFull)])

def handlers : List (String × Handler) := [("C17.trace", traceH), ("C17.tracemv", traceMVH)]

end Fca.Drv.C17
